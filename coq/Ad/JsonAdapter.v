(** Model of parser/json.go: the token-driven state stack of [jsonParser.Pull]
    (arrayState / objectState frames with onField and emitEndElement), over the
    token stream of encoding/json's Decoder (an oracle: the harness records the
    tokens the real decoder produces for the same bytes). *)
From XV Require Import Base.Str Doc.Tree.

Inductive jty := JArrS | JObjS.

Record jframe := JF { jf_ty : jty; jf_onField : bool; jf_emitEnd : bool }.

(** what [Decoder.Token] hands out; scalars (and keys) carry the text
    [jsonTokenValue] renders for them *)
Inductive jtok :=
| TOpen (t : jty)
| TClose (t : jty)
| TVal (s : str).

Inductive jout :=
| JEv (e : event)     (* a node / an end-of-element *)
| JEof                (* io.EOF: the document is complete *)
| JErr                (* io.ErrUnexpectedEOF *)
| JPanic.             (* popState on an empty stack: slice bounds out of range *)

Definition s_obj : str := [35; 111; 98; 106]%N.   (* #obj *)
Definition s_arr : str := [35; 97; 114; 114]%N.   (* #arr *)

Definition jname (t : jty) : qname := QN [] (match t with JObjS => s_obj | JArrS => s_arr end).

(** the stack is kept top first *)
Definition set_on_field (b : bool) (st : list jframe) : list jframe :=
  match st with f :: r => JF (jf_ty f) b (jf_emitEnd f) :: r | [] => [] end.
Definition set_emit_end (b : bool) (st : list jframe) : list jframe :=
  match st with f :: r => JF (jf_ty f) (jf_onField f) b :: r | [] => [] end.
Definition is_on_field (st : list jframe) : bool :=
  match st with f :: _ => jf_onField f | [] => false end.
Definition is_emit_end (st : list jframe) : bool :=
  match st with f :: _ => jf_emitEnd f | [] => false end.
Definition cur_is_obj (st : list jframe) : bool :=
  match st with f :: _ => match jf_ty f with JObjS => true | JArrS => false end | [] => false end.

(** one call of Pull: new stack, remaining tokens, what is returned *)
Definition pull (st : list jframe) (ts : list jtok) : list jframe * list jtok * jout :=
  if is_emit_end st then (set_emit_end false st, ts, JEv EvEnd)
  else
    match ts with
    | [] => match st with [] => (st, [], JEof) | _ :: _ => (st, [], JErr) end
    | TOpen t :: ts' =>
        let st1 := if cur_is_obj st then set_on_field true st else st in
        (JF t (match t with JObjS => true | JArrS => false end) false :: st1, ts', JEv (EvStart (jname t)))
    | TClose _ :: ts' =>
        match st with
        | [] => (st, ts', JPanic)
        | _ :: r => ((if is_on_field r then set_emit_end true r else r), ts', JEv EvEnd)
        end
    | TVal s :: ts' =>
        match st with
        | [] => (st, ts', JEv (EvLeaf (LText s)))
        | f :: r =>
            match jf_ty f with
            | JArrS => (st, ts', JEv (EvLeaf (LText s)))
            | JObjS =>
                if jf_onField f then (JF JObjS false (jf_emitEnd f) :: r, ts', JEv (EvStart (QN [] s)))
                else (JF JObjS true true :: r, ts', JEv (EvLeaf (LText s)))
            end
        end
    end.

(** the store's loop: Pull until something that is not a node comes back *)
Fixpoint drain (fuel : nat) (st : list jframe) (ts : list jtok) : option (list event * jout) :=
  match fuel with
  | O => None
  | S f =>
      match pull st ts with
      | (st', ts', JEv e) =>
          match drain f st' ts' with
          | Some (evs, o) => Some (e :: evs, o)
          | None => None
          end
      | (_, _, o) => Some ([], o)
      end
  end.

(** [ReadJson] then [CreateInMemory] on a token stream: enough fuel for every stream
    (each Pull consumes a token or clears a flag set while consuming one) *)
Definition read_json (ts : list jtok) : option (list event * jout) :=
  drain (2 * length ts + 3) [] ts.

(** ** JSON values and the documented mapping (README) *)
Inductive jval :=
| JScalar (s : str)                      (* string, number, true/false/null: one text node *)
| JArr (items : list jval)
| JObj (members : list (str * jval)).

Fixpoint toks (v : jval) {struct v} : list jtok :=
  match v with
  | JScalar s => [TVal s]
  | JArr items =>
      TOpen JArrS :: (fix go (l : list jval) : list jtok :=
                        match l with [] => [] | x :: r => toks x ++ go r end) items ++ [TClose JArrS]
  | JObj ms =>
      TOpen JObjS :: (fix go (l : list (str * jval)) : list jtok :=
                        match l with [] => [] | (k, x) :: r => TVal k :: toks x ++ go r end) ms ++ [TClose JObjS]
  end.

Fixpoint jevents (v : jval) {struct v} : list event :=
  match v with
  | JScalar s => [EvLeaf (LText s)]
  | JArr items =>
      EvStart (jname JArrS) :: (fix go (l : list jval) : list event :=
                                  match l with [] => [] | x :: r => jevents x ++ go r end) items ++ [EvEnd]
  | JObj ms =>
      EvStart (jname JObjS) ::
        (fix go (l : list (str * jval)) : list event :=
           match l with [] => [] | (k, x) :: r => EvStart (QN [] k) :: jevents x ++ EvEnd :: go r end) ms ++ [EvEnd]
  end.

(** ** what ReadJson + CreateInMemory return *)
From XV Require Import Doc.Store.

Inductive jres :=
| JTree (t : anode)       (* the cursor tree *)
| JError                  (* a non-nil error *)
| JPanicked
| JNoFuel.                (* never: [read_json] has fuel for every stream *)

(** [decoder_error]: after the tokens [ts] the decoder returned an error other than
    io.EOF (a syntax error in the text); it propagates *)
Definition read_json_result (ts : list jtok) (decoder_error : bool) : jres :=
  match read_json ts with
  | None => JNoFuel
  | Some (evs, o) =>
      match o with
      | JPanic => JPanicked
      | JEof => if decoder_error then JError else JTree (build evs)
      | _ => JError
      end
  end.

(** the tree the README documents for a list of top-level values *)
Definition json_spec_tree (vs : list jval) : anode := build (flat_map jevents vs).
