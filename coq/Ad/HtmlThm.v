(** C17: for every DOM whose first child is the doctype, the walk emits exactly the
    events of the DOM — same elements, nesting and order, local names, filtered
    attributes, text and comments; nothing skipped or duplicated — followed by one
    surplus end (the DocumentNode's, which the store ignores) and EOF. *)
From Coq Require Import Lia.
From XV Require Import Base.Str Doc.Tree Doc.Store Ad.HtmlAdapter.

Section dnode_ind.
  Variable P : dnode -> Prop.
  Hypothesis HE : forall name attrs kids, Forall P kids -> P (DElem name attrs kids).
  Hypothesis HT : forall s, P (DText s).
  Hypothesis HC : forall s, P (DComment s).
  Hypothesis HD : P DDoctype.
  Fixpoint dnode_ind' (n : dnode) : P n :=
    match n with
    | DElem name attrs kids =>
        HE name attrs kids ((fix go (l : list dnode) : Forall P l :=
                               match l with [] => Forall_nil P | k :: r => Forall_cons k (dnode_ind' k) (go r) end) kids)
    | DText s => HT s
    | DComment s => HC s
    | DDoctype => HD
    end.
End dnode_ind.

Definition hev_list (l : list dnode) : list event := flat_map hev l.

Lemma hev_elem name attrs kids : hev (DElem name attrs kids) = elem_events name attrs ++ hev_list kids ++ [EvEnd].
Proof.
  assert (E : (fix go (l : list dnode) : list event := match l with [] => [] | k :: r => hev k ++ go r end) kids = hev_list kids).
  { induction kids as [|k r IH]; simpl; [reflexivity|]. now rewrite IH. }
  simpl. now rewrite E.
Qed.

(** ** paths *)
Lemma dget_in_snoc : forall p l i, p <> [] ->
  dget_in l (p ++ [i]) = match dget_in l p with Some (DElem _ _ kids) => nth_error kids i | _ => None end.
Proof.
  induction p as [|j p IH]; intros l i Hp; [congruence|].
  simpl. destruct (nth_error l j) as [n|]; [|reflexivity].
  destruct p as [|k p].
  - simpl. destruct n; try reflexivity. destruct (nth_error kids i); reflexivity.
  - change ((k :: p) ++ [i]) with (k :: p ++ [i]).
    destruct n as [name attrs kids| | |]; try reflexivity.
    change (k :: p ++ [i]) with ((k :: p) ++ [i]). apply IH. discriminate.
Qed.

Lemma dget_snoc d p i : dget d (p ++ [i]) = nth_error (dkids d p) i.
Proof.
  unfold dget, dkids. destruct p as [|j p].
  - simpl. destruct (nth_error d i); reflexivity.
  - rewrite dget_in_snoc by discriminate. unfold dget.
    destruct (dget_in d (j :: p)) as [[name attrs kids| | |]|]; try reflexivity; now destruct i.
Qed.

Lemma next_path_snoc p i : next_path (p ++ [i]) = Some (p ++ [S i]).
Proof. unfold next_path. rewrite rev_app_distr. simpl. now rewrite rev_involutive. Qed.

Lemma parent_of_snoc p i : parent_of (p ++ [i]) = p.
Proof. unfold parent_of. apply removelast_last. Qed.

(** ** runs *)
Section Run.
  Variable d : dom.

  Inductive runs : hstate -> list event -> hout -> Prop :=
  | run_stop st st' o : pull d st = (st', o) -> (forall l, o <> HEv l) -> runs st [] o
  | run_event st st' l evs o : pull d st = (st', HEv l) -> runs st' evs o -> runs st (l ++ evs) o.

  Lemma hdrain_runs : forall fuel st evs o, hdrain fuel d st = Some (evs, o) -> runs st evs o.
  Proof.
    induction fuel as [|f IH]; intros st evs o H; simpl in H; [discriminate|].
    destruct (pull d st) as [st' out] eqn:Ep. destruct out as [l| | |].
    - destruct (hdrain f d st') as [[evs' o']|] eqn:Ed; [|discriminate]. inversion H; subst.
      eapply run_event; eauto.
    - inversion H; subst. eapply run_stop; eauto. discriminate.
    - inversion H; subst. eapply run_stop; eauto. discriminate.
    - inversion H; subst. eapply run_stop; eauto. discriminate.
  Qed.

  Lemma runs_deterministic st evs o : runs st evs o -> forall evs' o', runs st evs' o' -> evs = evs' /\ o = o'.
  Proof.
    induction 1 as [st st' o Hp Hn|st st' l evs o Hp Hr IH]; intros evs' o' H'.
    - inversion H'; subst.
      + rewrite Hp in H. inversion H; subst. auto.
      + rewrite Hp in H. inversion H; subst. exfalso. eapply Hn; eauto.
    - inversion H'; subst.
      + rewrite Hp in H. inversion H; subst. exfalso. eapply H0; eauto.
      + rewrite Hp in H. inversion H; subst. destruct (IH _ _ H0) as [-> ->]. auto.
  Qed.

  Lemma runs_pull_eq s1 s2 evs o : pull d s1 = pull d s2 -> runs s1 evs o -> runs s2 evs o.
  Proof.
    intros E H. inversion H; subst.
    - eapply run_stop; [rewrite <- E; eauto|assumption].
    - eapply run_event; [rewrite <- E; eauto|assumption].
  Qed.

  Definition R (p : list nat) : hstate := HS p false false false.   (* about to emit the node at p *)
  Definition A (p : list nat) : hstate := HS p false true false.    (* the node at p has just been emitted *)
  Definition U (p : list nat) : hstate := HS p false false true.    (* about to climb from p to its parent *)

  (** where the walk stands once the node at [p] and everything below it is done *)
  Definition N (p : list nat) : hstate :=
    match next_path p with
    | Some q => if dexists d q then R q else U p
    | None => U p
    end.

  Lemma normalize_N p : normalize d (N p) = N p.
  Proof. unfold N. destruct (next_path p) as [q|]; [destruct (dexists d q)|]; reflexivity. Qed.

  Lemma pull_A_no_kids p : dexists d (p ++ [O]) = false -> pull d (A p) = pull d (N p).
  Proof.
    intros H. unfold pull. cbn [A h_self].
    assert (HN : h_self (N p) = false).
    { unfold N. destruct (next_path p) as [q|]; [destruct (dexists d q)|]; reflexivity. }
    rewrite HN, normalize_N.
    assert (E : normalize d (A p) = N p).
    { unfold normalize, A, N. cbn [h_emitted h_cur h_self h_crawl]. rewrite H.
      destruct (next_path p) as [q|]; [destruct (dexists d q)|]; reflexivity. }
    now rewrite E.
  Qed.

  Lemma pull_A_kids p : dexists d (p ++ [O]) = true -> pull d (A p) = pull d (R (p ++ [O])).
  Proof.
    intros H. unfold pull. cbn [A R h_self].
    assert (E : normalize d (A p) = R (p ++ [O])).
    { unfold normalize, A, R. cbn [h_emitted h_cur h_self h_crawl]. now rewrite H. }
    rewrite E. reflexivity.
  Qed.

  (** climbing from the last child [p ++ [k]] emits the end of [p] and stands after [p] *)
  Lemma pull_U p k : pull d (U (p ++ [k])) = (N p, HEv [EvEnd]).
  Proof.
    unfold pull, U. cbn [h_self h_emitted h_crawl h_cur normalize].
    destruct (p ++ [k]) eqn:E; [apply app_eq_nil in E as [_ E]; discriminate|]. rewrite <- E, parent_of_snoc.
    unfold N. destruct (next_path p) as [q|]; [destruct (dexists d q)|]; reflexivity.
  Qed.

  (** no doctype below *)
  Fixpoint nodoc (n : dnode) : Prop :=
    match n with
    | DElem _ _ kids => (fix go (l : list dnode) : Prop := match l with [] => True | k :: r => nodoc k /\ go r end) kids
    | DDoctype => False
    | _ => True
    end.
  Fixpoint nodoc_list (l : list dnode) : Prop := match l with [] => True | k :: r => nodoc k /\ nodoc_list r end.
  Lemma nodoc_elem name attrs kids : nodoc (DElem name attrs kids) <-> nodoc_list kids.
  Proof.
    assert (E : (fix go (l : list dnode) : Prop := match l with [] => True | k :: r => nodoc k /\ go r end) kids = nodoc_list kids).
    { induction kids as [|k r IH]; simpl; [reflexivity|]. now rewrite IH. }
    simpl. now rewrite E.
  Qed.

  Definition visit_ok (n : dnode) : Prop :=
    forall p, p <> [] -> dget d p = Some n -> nodoc n ->
    forall evs o, runs (N p) evs o -> runs (R p) (hev n ++ evs) o.

  (** the children [ks] of [p], from index [i] on: each is visited and the walk then
      climbs from the last one *)
  Lemma visit_children p kids : dkids d p = kids -> forall ks pre,
    kids = pre ++ ks -> ks <> [] -> Forall visit_ok ks -> nodoc_list ks ->
    forall evs o, runs (U (p ++ [length kids - 1])) evs o ->
    runs (R (p ++ [length pre])) (hev_list ks ++ evs) o.
  Proof.
    intros Hk ks. induction ks as [|k ks IH]; intros pre E Hne Hv Hnd evs o Hr; [congruence|].
    pose proof (Forall_inv Hv) as Hvk. pose proof (Forall_inv_tail Hv) as Hvks. destruct Hnd as [Hndk Hndks].
    assert (Hget : dget d (p ++ [length pre]) = Some k).
    { rewrite dget_snoc, Hk, E, nth_error_app2 by lia. now rewrite Nat.sub_diag. }
    cbn [hev_list flat_map]. rewrite <- app_assoc.
    apply Hvk; auto.
    { intro H. apply app_eq_nil in H as [_ H]. discriminate. }
    unfold N. rewrite next_path_snoc. unfold dexists. rewrite dget_snoc, Hk, E.
    destruct ks as [|k2 ks].
    - (* the last child: climb *)
      rewrite nth_error_app2 by lia. replace (S (length pre) - length pre) with 1 by lia. simpl nth_error.
      simpl. rewrite E, app_length in Hr. simpl in Hr. replace (length pre + 1 - 1) with (length pre) in Hr by lia.
      exact Hr.
    - rewrite nth_error_app2 by lia. replace (S (length pre) - length pre) with 1 by lia. simpl nth_error.
      replace (S (length pre)) with (length (pre ++ [k])) by (rewrite app_length; simpl; lia).
      apply IH; auto; [now rewrite <- app_assoc|discriminate].
  Qed.

  Theorem visit : forall n, visit_ok n.
  Proof.
    induction n as [name attrs kids IH|s|s|] using dnode_ind'; intros p Hp Hget Hnd evs o Hr.
    - (* element *)
      rewrite hev_elem, <- app_assoc.
      assert (Hkids : dkids d p = kids).
      { unfold dkids. destruct p; [congruence|]. now rewrite Hget. }
      destruct kids as [|k0 ks].
      + (* no children: the self-closing end follows *)
        eapply run_event.
        { unfold pull, R. cbn [h_self normalize h_emitted h_crawl h_cur]. rewrite Hget. reflexivity. }
        simpl. eapply (run_event _ _ [EvEnd]); [reflexivity|]. cbn [h_cur h_emitted h_crawl].
        eapply runs_pull_eq; [symmetry; apply (pull_A_no_kids p)|exact Hr].
        unfold dexists. now rewrite dget_snoc, Hkids.
      + eapply run_event.
        { unfold pull, R. cbn [h_self normalize h_emitted h_crawl h_cur]. rewrite Hget. reflexivity. }
        eapply runs_pull_eq; [symmetry; apply pull_A_kids; unfold dexists; now rewrite dget_snoc, Hkids|].
        rewrite <- app_assoc.
        apply (visit_children p (k0 :: ks) Hkids (k0 :: ks) [] eq_refl).
        * discriminate.
        * exact IH.
        * now apply nodoc_elem.
        * eapply run_event; [apply pull_U|exact Hr].
    - (* text *)
      eapply (run_event _ _ [EvLeaf (LText s)]).
      { unfold pull, R. cbn [h_self normalize h_emitted h_crawl h_cur]. rewrite Hget. reflexivity. }
      eapply runs_pull_eq; [symmetry; apply pull_A_no_kids|exact Hr].
      unfold dexists. rewrite dget_snoc. unfold dkids. destruct p; [congruence|]. now rewrite Hget.
    - (* comment *)
      eapply (run_event _ _ [EvLeaf (LComment s)]).
      { unfold pull, R. cbn [h_self normalize h_emitted h_crawl h_cur]. rewrite Hget. reflexivity. }
      eapply runs_pull_eq; [symmetry; apply pull_A_no_kids|exact Hr].
      unfold dexists. rewrite dget_snoc. unfold dkids. destruct p; [congruence|]. now rewrite Hget.
    - destruct Hnd.
  Qed.
End Run.

(** THE theorem of C17: a DOM that starts with the doctype is mirrored exactly; the
    walk then emits the DocumentNode's surplus end and stops with EOF *)
Theorem html_walk_mirrors_dom rest st :
  rest <> [] -> nodoc_list rest -> h_init (DDoctype :: rest) = inl st ->
  runs (DDoctype :: rest) st (hev_list rest ++ [EvEnd]) HEof.
Proof.
  intros Hne Hnd Hinit. destruct rest as [|n rest]; [congruence|]. simpl in Hinit. inversion Hinit; subst; clear Hinit.
  set (d := DDoctype :: n :: rest).
  assert (Hv : Forall (visit_ok d) (n :: rest)) by (apply Forall_forall; intros x _; apply visit).
  change (HS [1] false false false) with (R ([] ++ [length [DDoctype]])).
  apply (visit_children d [] d eq_refl (n :: rest) [DDoctype] eq_refl).
  - discriminate.
  - exact Hv.
  - exact Hnd.
  - (* climbing from the last top-level node to the DocumentNode, then EOF *)
    eapply (run_event d _ _ [EvEnd]); [apply pull_U|].
    eapply run_stop; [reflexivity|discriminate].
Qed.

Corollary read_html_events_mirror rest evs o :
  rest <> [] -> nodoc_list rest ->
  read_html_events (DDoctype :: rest) = Some (evs, o) -> evs = hev_list rest ++ [EvEnd] /\ o = HEof.
Proof.
  intros Hne Hnd H. unfold read_html_events in H.
  destruct (h_init (DDoctype :: rest)) as [st|o'] eqn:Ei.
  - apply hdrain_runs in H. exact (runs_deterministic _ _ _ _ H _ _ (html_walk_mirrors_dom rest st Hne Hnd Ei)).
  - destruct rest; [congruence|discriminate].
Qed.

(** a document that does not start with a doctype is rejected *)
Theorem no_doctype_is_an_error n rest : n <> DDoctype -> h_init (n :: rest) = inr HErr.
Proof. destruct n; try reflexivity. congruence. Qed.

(** attribute filtering: xmlns declarations disappear, prefixes are stripped, the rest is kept in order *)
Theorem html_attribute_kept a :
  str_eqb (ha_key a) s_xmlns_h = false -> str_eqb (ha_ns a) s_xmlns_h = false ->
  is_prefix (s_xmlns_h ++ [58%N]) (ha_key a) = false ->
  create_html_attrs [a] = [(QN [] (local_name (ha_key a)), ha_val a)].
Proof. intros H1 H2 H3. unfold create_html_attrs. cbn [flat_map]. rewrite H1, H2, H3. reflexivity. Qed.

Theorem html_xmlns_attribute_dropped a :
  str_eqb (ha_key a) s_xmlns_h = true \/ str_eqb (ha_ns a) s_xmlns_h = true \/
  is_prefix (s_xmlns_h ++ [58%N]) (ha_key a) = true ->
  create_html_attrs [a] = [].
Proof.
  intros H. unfold create_html_attrs. cbn [flat_map].
  destruct (str_eqb (ha_key a) s_xmlns_h), (str_eqb (ha_ns a) s_xmlns_h); cbn [orb]; try reflexivity.
  destruct H as [H|[H|H]]; try discriminate. rewrite H. reflexivity.
Qed.

Theorem html_attrs_distribute a l : create_html_attrs (a :: l) = create_html_attrs [a] ++ create_html_attrs l.
Proof. unfold create_html_attrs. cbn [flat_map]. now rewrite app_nil_r. Qed.
