(** Model of parser/html.go: the flag-driven depth-first walk of [htmlParser.Pull]
    (nodeEmitted / emitSelfClosingTag / crawlToParent) over the DOM that
    golang.org/x/net/html builds (an oracle: the property is stated relative to it;
    the harness dumps the real DOM for the same bytes). Navigation by
    FirstChild / NextSibling / Parent is navigation on child-index paths. *)
From XV Require Import Base.Str Doc.Tree Doc.Store.

Record hattr := HA { ha_ns : str; ha_key : str; ha_val : str }.

Inductive dnode :=
| DElem (name : str) (attrs : list hattr) (kids : list dnode)
| DText (s : str)
| DComment (s : str)
| DDoctype.

(** a document: the children of the DocumentNode; a path [i; j; ...] names a node,
    [[]] the DocumentNode itself *)
Definition dom := list dnode.

Fixpoint dget_in (l : list dnode) (p : list nat) : option dnode :=
  match p with
  | [] => None
  | i :: r =>
      match nth_error l i with
      | None => None
      | Some n => match r with
                  | [] => Some n
                  | _ => match n with DElem _ _ kids => dget_in kids r | _ => None end
                  end
      end
  end.

Definition dget (d : dom) (p : list nat) : option dnode := dget_in d p.

Definition dkids (d : dom) (p : list nat) : list dnode :=
  match p with
  | [] => d
  | _ => match dget d p with Some (DElem _ _ kids) => kids | _ => [] end
  end.

Definition next_path (p : list nat) : option (list nat) :=
  match rev p with
  | [] => None
  | i :: r => Some (rev r ++ [S i])
  end.

Definition parent_of (p : list nat) : list nat := removelast p.

Definition dexists (d : dom) (p : list nat) : bool :=
  match dget d p with Some _ => true | None => false end.

(** getLocalName: what follows the first ':' *)
Fixpoint after_colon (s : str) : option str :=
  match s with
  | [] => None
  | c :: r => if N.eqb c 58 then Some r else after_colon r
  end.
Definition local_name (s : str) : str := match after_colon s with Some r => r | None => s end.

Definition s_xmlns_h : str := [120; 109; 108; 110; 115]%N.

(** createHtmlAttrs *)
Definition create_html_attrs (attrs : list hattr) : list (qname * str) :=
  flat_map (fun a =>
              if str_eqb (ha_key a) s_xmlns_h || str_eqb (ha_ns a) s_xmlns_h then []
              else if is_prefix (s_xmlns_h ++ [58%N]) (ha_key a) then []
              else [(QN [] (local_name (ha_key a)), ha_val a)]) attrs.

Record hstate := HS { h_cur : list nat; h_self : bool; h_emitted : bool; h_crawl : bool }.

Inductive hout :=
| HEv (evs : list event)   (* the node returned by this Pull (an element with its replayed attributes) *)
| HEof
| HErr
| HPanic.                  (* nil dereference *)

(** the nodeEmitted step: move to the first child, else the next sibling, else start
    crawling to the parent *)
Definition normalize (d : dom) (st : hstate) : hstate :=
  if h_emitted st then
    let p := h_cur st in
    if dexists d (p ++ [O]) then HS (p ++ [O]) (h_self st) false (h_crawl st)
    else match next_path p with
         | Some q => if dexists d q then HS q (h_self st) false (h_crawl st)
                     else HS p (h_self st) false true
         | None => HS p (h_self st) false true
         end
  else st.

Definition elem_events (name : str) (attrs : list hattr) : list event :=
  EvStart (QN [] (local_name name)) :: map (fun a => EvAttr (fst a) (snd a)) (create_html_attrs attrs).

Definition pull (d : dom) (st0 : hstate) : hstate * hout :=
  if h_self st0 then (HS (h_cur st0) false (h_emitted st0) (h_crawl st0), HEv [EvEnd])
  else
    let st := normalize d st0 in
    let p := h_cur st in
    if h_crawl st then
      match p with
      | [] => (st, HEof)                                   (* the DocumentNode has no parent *)
      | _ =>
          let q := parent_of p in
          match next_path q with
          | Some q' => if dexists d q' then (HS q' false false false, HEv [EvEnd])
                       else (HS q false false true, HEv [EvEnd])
          | None => (HS q false false true, HEv [EvEnd])
          end
      end
    else
      match dget d p with
      | None => (st, HPanic)
      | Some (DElem name attrs kids) =>
          (HS p (match kids with [] => true | _ => false end) true false, HEv (elem_events name attrs))
      | Some (DText s) => (HS p false true false, HEv [EvLeaf (LText s)])
      | Some (DComment s) => (HS p false true false, HEv [EvLeaf (LComment s)])
      | Some DDoctype =>
          (* x.node = x.node.NextSibling; return x.Pull() *)
          match next_path p with
          | Some q => if dexists d q then (HS q false false false, HEv []) else (st, HPanic)
          | None => (st, HPanic)
          end
      end.

(** the first Pull: DocumentNode, then its first child must be the doctype *)
Definition h_init (d : dom) : hstate + hout :=
  match d with
  | [] => inr HPanic
  | DDoctype :: _ :: _ => inl (HS [1%nat] false false false)
  | DDoctype :: [] => inr HPanic
  | _ :: _ => inr HErr                                      (* "doctype declaration not found" *)
  end.

Fixpoint hdrain (fuel : nat) (d : dom) (st : hstate) : option (list event * hout) :=
  match fuel with
  | O => None
  | S f =>
      match pull d st with
      | (st', HEv l) => match hdrain f d st' with
                        | Some (evs, o) => Some (l ++ evs, o)
                        | None => None
                        end
      | (_, o) => Some ([], o)
      end
  end.

Fixpoint dsize (n : dnode) : nat :=
  match n with
  | DElem _ _ kids => S ((fix go (l : list dnode) : nat := match l with [] => O | k :: r => dsize k + go r end) kids)
  | _ => 1
  end.
Definition dom_size (d : dom) : nat := fold_right (fun n acc => dsize n + acc) O d.

Definition read_html_events (d : dom) : option (list event * hout) :=
  match h_init d with
  | inr o => Some ([], o)
  | inl st => hdrain (3 * dom_size d + 5) d st
  end.

Inductive hres := HTree (t : anode) | HError | HPanicked | HNoFuel.

Definition read_html (d : dom) : hres :=
  match read_html_events d with
  | None => HNoFuel
  | Some (evs, HEof) => HTree (build evs)
  | Some (_, HPanic) => HPanicked
  | Some (_, _) => HError
  end.

(** ** the mirror of the DOM *)
Fixpoint hev (n : dnode) {struct n} : list event :=
  match n with
  | DElem name attrs kids =>
      elem_events name attrs ++
        (fix go (l : list dnode) : list event := match l with [] => [] | k :: r => hev k ++ go r end) kids ++ [EvEnd]
  | DText s => [EvLeaf (LText s)]
  | DComment s => [EvLeaf (LComment s)]
  | DDoctype => []
  end.
