(** Model of parser/xml.go: [xmlParser.Pull] over the tokens of encoding/xml's
    Decoder (an oracle; the harness records the tokens the real decoder produces for
    the same bytes): namespace declarations vs ordinary attributes, merging of
    adjacent character data, the XML declaration, directives, white space outside the
    document element. The events are what the store consumes (Doc/Store.v). *)
From XV Require Import Base.Str Doc.Tree Doc.Store.
Local Open Scope Z_scope.

(** xml.Token: names are already translated by the decoder (Space = namespace URI
    for a declared prefix; "xmlns" for xmlns:p; "" and Local "xmlns" for xmlns=) *)
Inductive xtok :=
| XStart (nm : qname) (attrs : list (qname * str))
| XEnd
| XChar (s : str)
| XCommentT (s : str)
| XProcInst (target inst : str)
| XDirective.

Definition s_xmlns : str := [120; 109; 108; 110; 115]%N.
Definition s_xml : str := [120; 109; 108]%N.
Definition xml_ns_uri : str :=
  map N.of_nat
    [104; 116; 116; 112; 58; 47; 47; 119; 119; 119; 46; 119; 51; 46; 111; 114; 103; 47;
     88; 77; 76; 47; 49; 57; 57; 56; 47; 110; 97; 109; 101; 115; 112; 97; 99; 101]%nat.

(** createXmlNamespaces: xml first, then every declaration in attribute order *)
Fixpoint decl_attrs (attrs : list (qname * str)) : list (str * str) :=
  match attrs with
  | [] => []
  | (nm, v) :: r =>
      if str_eqb (q_space nm) [] && str_eqb (q_local nm) s_xmlns then ([], v) :: decl_attrs r
      else if str_eqb (q_space nm) s_xmlns then (q_local nm, v) :: decl_attrs r
      else if str_eqb (q_local nm) s_xmlns then (q_space nm, v) :: decl_attrs r   (* legacy p:xmlns spelling *)
      else decl_attrs r
  end.
Definition create_ns (attrs : list (qname * str)) : list (str * str) := (s_xml, xml_ns_uri) :: decl_attrs attrs.

(** createXmlAttrs *)
Definition create_attrs (attrs : list (qname * str)) : list (qname * str) :=
  filter (fun a => negb (str_eqb (q_space (fst a)) s_xmlns || str_eqb (q_local (fst a)) s_xmlns)) attrs.

(** outside the document element white space is not part of the document, and neither is a
    byte order mark (U+FEFF) in front of it *)
Definition top_ignorable (c : N) : bool := is_xml_ws c || N.eqb c 65279.

(** a text node - which has at least one character (an empty CDATA section on its own is
    none) - unless it is ignorable text outside the document element *)
Definition flush (depth : Z) (pending : option str) : list event :=
  match pending with
  | None => []
  | Some v =>
      if (match v with [] => true | _ => false end) || (Z.eqb depth 0 && forallb top_ignorable v)
      then [] else [EvLeaf (LText v)]
  end.

(** the event stream of the whole token stream; [pending] is the character data read
    ahead by readCharData and not yet emitted *)
Fixpoint xml_events (depth : Z) (pending : option str) (ts : list xtok) : list event :=
  match ts with
  | [] => flush depth pending
  | XChar s :: r =>
      xml_events depth (Some (match pending with Some v => v ++ s | None => s end)) r
  | XStart nm attrs :: r =>
      flush depth pending ++
      EvStart nm :: map (fun d => EvNs (fst d) (snd d)) (create_ns attrs)
                 ++ map (fun a => EvAttr (fst a) (snd a)) (create_attrs attrs)
                 ++ xml_events (depth + 1) None r
  | XEnd :: r => flush depth pending ++ EvEnd :: xml_events (depth - 1) None r
  | XCommentT s :: r => flush depth pending ++ EvLeaf (LComment s) :: xml_events depth None r
  | XProcInst t i :: r =>
      flush depth pending ++
      (if str_eqb t s_xml then [] else [EvLeaf (LPI t i)]) ++ xml_events depth None r
  | XDirective :: r => flush depth pending ++ xml_events depth None r
  end.

(** ReadXml + CreateInMemory: [decoder_error] = the decoder stopped with an error other
    than io.EOF after these tokens (a syntax / encoding error): it is returned, never a
    partial tree *)
Definition read_xml (ts : list xtok) (decoder_error : bool) : option anode :=
  if decoder_error then None else Some (build (xml_events 0 None ts)).

(** ** abstract documents with their serialisation choices *)
Inductive rawattr :=
| RDecl (prefix uri : str)         (* xmlns:prefix="uri"; prefix [] is xmlns="uri" *)
| RAttr (nm : qname) (v : str).    (* an ordinary attribute, expanded name *)

Inductive xitem :=
| XE (nm : qname) (raw : list rawattr) (kids : list xitem)
| XT (pieces : list str)           (* one text node written as text / CDATA sections / references *)
| XC (s : str)
| XP (target data : str)
| XDeclItem (inst : str)           (* the XML declaration: not a node *)
| XDirItem.                        (* document type declaration: not a node *)

Definition render_attr (a : rawattr) : qname * str :=
  match a with
  | RDecl [] u => (QN [] s_xmlns, u)
  | RDecl p u => (QN s_xmlns p, u)
  | RAttr nm v => (nm, v)
  end.

Fixpoint item_toks (x : xitem) {struct x} : list xtok :=
  match x with
  | XE nm raw kids =>
      XStart nm (map render_attr raw) ::
        (fix go (l : list xitem) : list xtok := match l with [] => [] | k :: r => item_toks k ++ go r end) kids
        ++ [XEnd]
  | XT pieces => map XChar pieces
  | XC s => [XCommentT s]
  | XP t d => [XProcInst t d]
  | XDeclItem i => [XProcInst s_xml i]
  | XDirItem => [XDirective]
  end.

Definition raw_decls (raw : list rawattr) : list (str * str) :=
  flat_map (fun a => match a with RDecl p u => [(p, u)] | RAttr _ _ => [] end) raw.
Definition raw_attrs (raw : list rawattr) : list (qname * str) :=
  flat_map (fun a => match a with RDecl _ _ => [] | RAttr nm v => [(nm, v)] end) raw.

(** the XPath data model of the item at nesting depth [depth], as store events: elements
    with one namespace event per declaration (xml first; the store adds the inherited
    ones), attributes without the declarations, one text node per run of character
    data, comments, PIs without the XML declaration *)
Fixpoint dm_events (depth : Z) (x : xitem) {struct x} : list event :=
  match x with
  | XE nm raw kids =>
      EvStart nm :: map (fun d => EvNs (fst d) (snd d)) ((s_xml, xml_ns_uri) :: raw_decls raw)
                 ++ map (fun a => EvAttr (fst a) (snd a)) (raw_attrs raw)
                 ++ (fix go (l : list xitem) : list event :=
                       match l with [] => [] | k :: r => dm_events (depth + 1) k ++ go r end) kids
                 ++ [EvEnd]
  | XT pieces => flush depth (Some (concat pieces))
  | XC s => [EvLeaf (LComment s)]
  | XP t d => [EvLeaf (LPI t d)]
  | XDeclItem _ => []
  | XDirItem => []
  end.
